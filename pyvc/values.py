"""Symbolic value layer of PyVC.

Python values that are concrete at verification time stay ordinary Python
objects.  Values that depend on symbolic inputs are instances of the classes
below; each wraps a z3 term.  Operators are overloaded so that the AST
interpreter (interp.py), the models of external functions (models.py) and the
spec functions (/verif/spec) can all be written with ordinary Python operators.

Integer theories
----------------
SInt wraps either
  * a z3 Int term  ("int mode": exact unbounded integers; + - * by anything,
    // % >> << & only with constant right operands of the shapes listed in
    _int_bitop), or
  * a z3 BitVec(W) term ("bv mode", W = 128, two's complement).  Python ints
    are unbounded, so every arithmetic operation that could leave the W-bit
    range carries a *no-overflow side obligation*: either it is excluded by the
    interval [lo, hi] tracked with every SInt (sound over-approximation,
    maintained syntactically), or a solver obligation is emitted through the
    active engine (Engine.side_obligation).  On every path on which all side
    obligations are discharged, W-bit arithmetic coincides with Python's.
Floats are modelled as z3 Reals (declared assumption: machine arithmetic
treated as mathematical); every unit that touches floats also has a bounded
IEEE stand-in.
"""
import z3

W = 128
_MIN = -(1 << (W - 1))
_MAX = (1 << (W - 1)) - 1


class Unsupported(Exception):
    """A construct outside the modelled subset: the obligation is UNDECIDED."""


def engine():
    from . import engine as _e
    if _e.Engine.current is None:
        raise Unsupported('symbolic value used outside an engine run')
    return _e.Engine.current


# --------------------------------------------------------------------------
# booleans
# --------------------------------------------------------------------------
class SBool(object):
    __slots__ = ('t',)

    def __init__(self, t):
        self.t = t

    def __bool__(self):
        # Branching on a symbolic condition anywhere (interpreter, model, spec)
        # forks the path through the active engine.
        return engine().decide(self.t)

    def __repr__(self):
        return 'SBool(%s)' % (self.t,)

    def __eq__(self, o):
        return SBool(self.t == term_bool(o))

    def __ne__(self, o):
        return SBool(self.t != term_bool(o))

    __hash__ = None


def term_bool(x):
    if isinstance(x, SBool):
        return x.t
    if isinstance(x, bool):
        return z3.BoolVal(x)
    if z3.is_bool(x):
        return x
    if isinstance(x, SInt):
        return (x != 0).t
    if isinstance(x, (int, float, str, bytes, tuple, list, dict, set, frozenset)) or x is None:
        return z3.BoolVal(bool(x))
    raise Unsupported('cannot convert %r to a boolean term' % (type(x),))


def is_symbolic(x):
    return isinstance(x, (SBool, SInt, SReal, SBytes, SStr, SOpaque))



def mk_bool(t):
    """Return a Python bool when the term is literally true/false."""
    t = z3.simplify(t)
    if z3.is_true(t):
        return True
    if z3.is_false(t):
        return False
    return SBool(t)


def And(*xs):
    return mk_bool(z3.And(*[term_bool(x) for x in xs])) if xs else True


def Or(*xs):
    return mk_bool(z3.Or(*[term_bool(x) for x in xs])) if xs else False


def Not(x):
    return mk_bool(z3.Not(term_bool(x)))


def Implies(a, b):
    return mk_bool(z3.Implies(term_bool(a), term_bool(b)))


# --------------------------------------------------------------------------
# integers
# --------------------------------------------------------------------------
def _fits(lo, hi):
    return lo is not None and hi is not None and _MIN <= lo and hi <= _MAX


class SInt(object):
    __slots__ = ('t', 'lo', 'hi', 'tz')

    def to_bytes(self, length, byteorder='big', *, signed=False):
        """int.to_bytes (assumed Python semantics): two's-complement / unsigned big- or little-endian bytes of exactly `length`
        bytes; OverflowError when the value does not fit (decided per path)."""
        from .builtins_model import int_bytes
        if not isinstance(length, int) or isinstance(signed, SBool):
            raise Unsupported('int.to_bytes with a symbolic length / signedness')
        if byteorder not in ('big', 'little'):
            raise ValueError("byteorder must be either 'little' or 'big'")
        E = engine()
        lo, hi = (-(1 << (8 * length - 1)), (1 << (8 * length - 1)) - 1) if signed else (0, (1 << (8 * length)) - 1)
        fits = And(self >= lo, self <= hi)
        if not (fits if isinstance(fits, bool) else E.decide(fits.t)):
            neg = self < 0
            if not signed and (neg if isinstance(neg, bool) else E.decide(neg.t)):
                raise OverflowError("can't convert negative int to unsigned")
            raise OverflowError('int too big to convert')
        bs = int_bytes(self, length)
        return SBytes(bs[::-1] if byteorder == 'little' and length > 1 else bs)

    def bit_length(self):
        """int.bit_length (assumed Python semantics: the k with 2^(k-1) <= |n| < 2^k, 0 for 0): one path per value of k, the
        result is concrete on each path.  For a bit-vector integer of width W only magnitudes below 2^(W-2) are covered."""
        E = engine()
        for k in range(0, (self.t.size() - 1) if self.bv else 257):
            inside = And(self < (1 << k), self > -(1 << k))
            if inside if isinstance(inside, bool) else E.decide(inside.t):
                return k
        raise Unsupported('int.bit_length: magnitude beyond the modelled range')

    def __init__(self, t, lo=None, hi=None):
        self.t = t
        self.lo = lo
        self.hi = hi
        self.tz = 0

    # -- helpers ---------------------------------------------------------
    @property
    def bv(self):
        return z3.is_bv(self.t)

    def _coerce(self, o):
        """Other operand as an SInt of the same mode, or None."""
        if isinstance(o, SInt):
            if o.bv != self.bv:
                raise Unsupported('mixed Int/BV integer operands')
            return o
        if isinstance(o, bool):
            o = int(o)
        if isinstance(o, int):
            if self.bv:
                if not (_MIN <= o <= _MAX):
                    raise Unsupported('constant outside BV(%d)' % W)
                return SInt(z3.BitVecVal(o, W), o, o)
            return SInt(z3.IntVal(o), o, o)
        if isinstance(o, SBool):
            one = z3.BitVecVal(1, W) if self.bv else z3.IntVal(1)
            zero = z3.BitVecVal(0, W) if self.bv else z3.IntVal(0)
            return SInt(z3.If(o.t, one, zero), 0, 1)
        return None

    def _arith(self, o, op, bounds, bvcheck):
        o2 = self._coerce(o)
        if o2 is None:
            if isinstance(o, (SReal, float)):
                return NotImplemented
            return NotImplemented
        lo, hi = bounds(self, o2)
        t = op(self.t, o2.t)
        if self.bv and not _fits(lo, hi):
            # cannot exclude wrap-around syntactically: solver side obligation
            engine().side_obligation('no-overflow', bvcheck(self.t, o2.t))
            lo = hi = None
        return SInt(t, lo, hi)

    # -- arithmetic ------------------------------------------------------
    def __add__(self, o):
        def b(a, c):
            if None in (a.lo, a.hi, c.lo, c.hi):
                return None, None
            return a.lo + c.lo, a.hi + c.hi
        return self._arith(o, lambda x, y: x + y, b,
                           lambda x, y: z3.And(z3.BVAddNoOverflow(x, y, True),
                                               z3.BVAddNoUnderflow(x, y)))

    def __radd__(self, o):
        return self.__add__(o)

    def __sub__(self, o):
        def b(a, c):
            if None in (a.lo, a.hi, c.lo, c.hi):
                return None, None
            return a.lo - c.hi, a.hi - c.lo
        return self._arith(o, lambda x, y: x - y, b,
                           lambda x, y: z3.And(z3.BVSubNoOverflow(x, y),
                                               z3.BVSubNoUnderflow(x, y, True)))

    def __rsub__(self, o):
        c = self._coerce(o)
        if c is None:
            return NotImplemented
        return c.__sub__(self)

    def __mul__(self, o):
        if isinstance(o, (float, SReal)):
            return to_real(self) * o
        def b(a, c):
            if None in (a.lo, a.hi, c.lo, c.hi):
                return None, None
            ps = [a.lo * c.lo, a.lo * c.hi, a.hi * c.lo, a.hi * c.hi]
            return min(ps), max(ps)
        return self._arith(o, lambda x, y: x * y, b,
                           lambda x, y: z3.And(z3.BVMulNoOverflow(x, y, True),
                                               z3.BVMulNoUnderflow(x, y)))

    def __rmul__(self, o):
        if isinstance(o, (float, SReal)):
            return o * to_real(self)
        return self.__mul__(o)

    def __neg__(self):
        return SInt._zero_like(self).__sub__(self)

    @staticmethod
    def _zero_like(x):
        return SInt(z3.BitVecVal(0, W), 0, 0) if x.bv else SInt(z3.IntVal(0), 0, 0)

    def __pos__(self):
        return self

    def __abs__(self):
        neg = -self
        t = z3.If((self < 0).t if isinstance(self < 0, SBool) else z3.BoolVal(self < 0), neg.t, self.t)
        return SInt(t, 0, None)

    def __truediv__(self, o):
        return to_real(self) / o

    def __rtruediv__(self, o):
        return to_real(o) / to_real(self)

    def _const(self, o):
        if isinstance(o, bool):
            return int(o)
        if isinstance(o, int):
            return o
        if isinstance(o, SInt) and o.lo is not None and o.lo == o.hi:
            return o.lo
        return None

    def __floordiv__(self, o):
        c = self._const(o)
        if c is None:
            o2 = self._coerce(o)
            if o2 is not None and not self.bv:
                if not getattr(engine(), 'nonlinear_ok', False):
                    raise Unsupported('floor division by a symbolic value (nonlinear; unit has not opted in)')
                # symbolic divisor, int mode: only for provably positive divisors
                if o2.lo is None or o2.lo <= 0:
                    engine().side_obligation('divisor-positive', o2.t > 0)
                return SInt(self.t / o2.t, None, None)
            raise Unsupported('floor division by a symbolic value')
        if c <= 0:
            raise Unsupported('floor division by a non-positive constant')
        lo = None if self.lo is None else self.lo // c
        hi = None if self.hi is None else self.hi // c
        if self.bv:
            if c & (c - 1) == 0:
                return SInt(self.t >> (c.bit_length() - 1), lo, hi)
            q = self.t / z3.BitVecVal(c, W)          # truncating signed division
            r = z3.SRem(self.t, z3.BitVecVal(c, W))
            t = z3.If(z3.And(r != 0, self.t < 0), q - 1, q)
            return SInt(t, lo, hi)
        return SInt(self.t / z3.IntVal(c), lo, hi)

    def __mod__(self, o):
        c = self._const(o)
        if c is None:
            o2 = self._coerce(o)
            if o2 is not None and not self.bv:
                if not getattr(engine(), 'nonlinear_ok', False):
                    raise Unsupported('modulo by a symbolic value (nonlinear; unit has not opted in)')
                if o2.lo is None or o2.lo <= 0:
                    engine().side_obligation('divisor-positive', o2.t > 0)
                return SInt(self.t % o2.t, 0, None if o2.hi is None else o2.hi - 1)
            if isinstance(o, (float, SReal)):
                return to_real(self) % o
            raise Unsupported('modulo by a symbolic value')
        if c <= 0:
            raise Unsupported('modulo by a non-positive constant')
        if self.bv:
            if c & (c - 1) == 0:
                return SInt(self.t & z3.BitVecVal(c - 1, W), 0, c - 1)
            r = z3.SRem(self.t, z3.BitVecVal(c, W))
            t = z3.If(r < 0, r + c, r)
            return SInt(t, 0, c - 1)
        return SInt(self.t % z3.IntVal(c), 0, c - 1)

    def __divmod__(self, o):
        return (self // o, self % o)

    # -- bit operations ----------------------------------------------------
    def __lshift__(self, o):
        k = self._const(o)
        if k is None or k < 0:
            raise Unsupported('shift by a symbolic or negative amount')
        lo = None if self.lo is None else self.lo << k
        hi = None if self.hi is None else self.hi << k
        if self.bv:
            if k >= W - 1:
                raise Unsupported('shift beyond BV width')
            if not _fits(lo, hi):
                back = (self.t << k) >> k
                engine().side_obligation('no-overflow', back == self.t)
                lo = hi = None
            return SInt(self.t << k, lo, hi)
        r = SInt(self.t * z3.IntVal(1 << k), lo, hi)
        r.tz = k + getattr(self, 'tz', 0)          # known trailing zero bits (for  (a << k) | b  with  0 <= b < 2^k)
        return r

    def __rlshift__(self, o):
        raise Unsupported('shift by a symbolic amount')

    def __rshift__(self, o):
        k = self._const(o)
        if k is None or k < 0:
            raise Unsupported('shift by a symbolic or negative amount')
        lo = None if self.lo is None else self.lo >> k
        hi = None if self.hi is None else self.hi >> k
        if self.bv:
            if k >= W:
                k = W - 1
            return SInt(self.t >> k, lo, hi)          # arithmetic shift (signed)
        return SInt(self.t / z3.IntVal(1 << k), lo, hi)

    def __rrshift__(self, o):
        raise Unsupported('shift by a symbolic amount')

    def __and__(self, o):
        o2 = self._coerce(o)
        if o2 is None:
            return NotImplemented
        if self.bv:
            lo = hi = None
            nn_a = self.lo is not None and self.lo >= 0
            nn_b = o2.lo is not None and o2.lo >= 0
            if nn_a or nn_b:
                lo = 0
                cands = [x.hi for x, nn in ((self, nn_a), (o2, nn_b)) if nn and x.hi is not None]
                hi = min(cands) if cands else None
            return SInt(self.t & o2.t, lo, hi)
        c = self._const(o)
        if c is None:
            c2 = o2._const(self) if isinstance(self, SInt) and self.lo is not None and self.lo == self.hi else None
            raise Unsupported('& with two symbolic operands in Int mode')
        if c >= 0 and (c + 1) & c == 0:                 # 2^k - 1 mask
            return SInt(self.t % z3.IntVal(c + 1), 0, c)
        if c > 0 and c & (c - 1) == 0:                  # single bit 2^k
            bit = (self.t / z3.IntVal(c)) % 2
            return SInt(bit * c, 0, c)
        if c < 0 and (-c) & (-c - 1) == 0:              # ~(2^k - 1): clear low bits
            m = -c
            return SInt(self.t - self.t % z3.IntVal(m), None, None)
        raise Unsupported('& with constant %#x in Int mode' % c)

    __rand__ = __and__

    def __or__(self, o):
        o2 = self._coerce(o)
        if o2 is None:
            return NotImplemented
        if self.bv:
            lo = hi = None
            if (self.lo is not None and self.lo >= 0 and o2.lo is not None and o2.lo >= 0
                    and self.hi is not None and o2.hi is not None):
                lo = max(self.lo, o2.lo)
                hi = (1 << max(self.hi.bit_length(), o2.hi.bit_length())) - 1
            return SInt(self.t | o2.t, lo, hi)
        # Int mode: a | c is a + c when no bit of c can be set in a
        for a, c in ((self, o2), (o2, self)):
            if c.lo is not None and c.lo == c.hi and c.lo >= 0:
                cv = c.lo
                if cv == 0:
                    return a
                low = cv & -cv
                if a.lo is not None and a.lo >= 0 and a.hi is not None and a.hi < low:
                    return SInt(a.t + z3.IntVal(cv), a.lo + cv, a.hi + cv)
        for a, c in ((self, o2), (o2, self)):
            tz = getattr(a, 'tz', 0)
            if tz and c.lo is not None and c.lo >= 0 and c.hi is not None and c.hi < (1 << tz):
                # the low tz bits of a are zero (also for negative a, in two's complement): no carries
                return SInt(a.t + c.t, None if a.lo is None else a.lo + c.lo, None if a.hi is None else a.hi + c.hi)
        raise Unsupported('| in Int mode')

    __ror__ = __or__

    def __xor__(self, o):
        o2 = self._coerce(o)
        if o2 is None:
            return NotImplemented
        if self.bv:
            return SInt(self.t ^ o2.t, None, None)
        raise Unsupported('^ in Int mode')

    __rxor__ = __xor__

    def __invert__(self):
        lo = None if self.hi is None else -self.hi - 1
        hi = None if self.lo is None else -self.lo - 1
        if self.bv:
            return SInt(~self.t, lo, hi)
        return SInt(-self.t - 1, lo, hi)

    # -- comparisons -------------------------------------------------------
    def _cmp(self, o, f):
        if isinstance(o, (float, SReal)):
            return f(to_real(self).t, to_real(o).t, True)
        o2 = self._coerce(o)
        if o2 is None:
            return NotImplemented
        return f(self.t, o2.t, False)

    def __lt__(self, o):
        r = self._cmp(o, lambda a, b, _: a < b)
        return r if r is NotImplemented else mk_bool(r)

    def __le__(self, o):
        r = self._cmp(o, lambda a, b, _: a <= b)
        return r if r is NotImplemented else mk_bool(r)

    def __gt__(self, o):
        r = self._cmp(o, lambda a, b, _: a > b)
        return r if r is NotImplemented else mk_bool(r)

    def __ge__(self, o):
        r = self._cmp(o, lambda a, b, _: a >= b)
        return r if r is NotImplemented else mk_bool(r)

    def __eq__(self, o):
        if o is None or isinstance(o, (str, bytes, tuple, list, dict)):
            return False
        r = self._cmp(o, lambda a, b, _: a == b)
        return False if r is NotImplemented else mk_bool(r)

    def __ne__(self, o):
        e = self.__eq__(o)
        return Not(e)

    __hash__ = None

    def __bool__(self):
        return bool(self != 0)

    def __index__(self):
        raise Unsupported('symbolic integer used where a concrete index is required')

    def __int__(self):
        raise Unsupported('int() of a symbolic integer in native code')

    def __repr__(self):
        return 'SInt(%s)' % (z3.simplify(self.t),)


def bv_const(name, lo=None, hi=None):
    return SInt(z3.BitVec(name, W), lo, hi)


def int_const(name, lo=None, hi=None):
    return SInt(z3.Int(name), lo, hi)


def ite(c, a, b):
    """Value-level if-then-else without forking."""
    if isinstance(c, bool):
        return a if c else b
    ct = term_bool(c)
    if isinstance(a, (SInt, int)) and isinstance(b, (SInt, int)) and not isinstance(a, bool):
        s = a if isinstance(a, SInt) else b
        if not isinstance(s, SInt):
            if engine().int_mode == 'bv':
                return SInt(z3.If(ct, z3.BitVecVal(a, W), z3.BitVecVal(b, W)), min(a, b), max(a, b))
            return SInt(z3.If(ct, z3.IntVal(a), z3.IntVal(b)), min(a, b), max(a, b))
        a2, b2 = s._coerce(a), s._coerce(b)
        lo = None if None in (a2.lo, b2.lo) else min(a2.lo, b2.lo)
        hi = None if None in (a2.hi, b2.hi) else max(a2.hi, b2.hi)
        return SInt(z3.If(ct, a2.t, b2.t), lo, hi)
    if isinstance(a, (SBool, bool)) and isinstance(b, (SBool, bool)):
        return mk_bool(z3.If(ct, term_bool(a), term_bool(b)))
    if isinstance(a, (SReal, float, int)) and isinstance(b, (SReal, float, int)):
        return SReal(z3.If(ct, to_real(a).t, to_real(b).t))
    raise Unsupported('ite over %r / %r' % (type(a), type(b)))


# --------------------------------------------------------------------------
# floats as reals
# --------------------------------------------------------------------------
class SReal(object):
    """A Python float modelled as a mathematical real (declared assumption)."""
    __slots__ = ('t',)

    def __init__(self, t):
        self.t = t

    def _bin(self, o, f):
        try:
            o2 = to_real(o)
        except Unsupported:
            return NotImplemented
        return SReal(f(self.t, o2.t))

    def __add__(self, o):
        return self._bin(o, lambda a, b: a + b)

    __radd__ = __add__

    def __sub__(self, o):
        return self._bin(o, lambda a, b: a - b)

    def __rsub__(self, o):
        return self._bin(o, lambda a, b: b - a)

    def __mul__(self, o):
        return self._bin(o, lambda a, b: a * b)

    __rmul__ = __mul__

    def __truediv__(self, o):
        c = to_real(o)
        return SReal(self.t / c.t)

    def __rtruediv__(self, o):
        return SReal(to_real(o).t / self.t)

    def __neg__(self):
        return SReal(-self.t)

    def __mod__(self, o):
        if isinstance(o, (int, float)) and o > 0:
            c = z3.RealVal(o)
            return SReal(self.t - c * z3.ToReal(z3.ToInt(self.t / c)))
        raise Unsupported('real modulo by a non-constant')

    def __floordiv__(self, o):
        if isinstance(o, (int, float)) and o > 0:
            return SReal(z3.ToReal(z3.ToInt(self.t / z3.RealVal(o))))
        raise Unsupported('real floor division by a non-constant')

    def _cmp(self, o, f):
        try:
            o2 = to_real(o)
        except Unsupported:
            return NotImplemented
        return mk_bool(f(self.t, o2.t))

    def __lt__(self, o):
        return self._cmp(o, lambda a, b: a < b)

    def __le__(self, o):
        return self._cmp(o, lambda a, b: a <= b)

    def __gt__(self, o):
        return self._cmp(o, lambda a, b: a > b)

    def __ge__(self, o):
        return self._cmp(o, lambda a, b: a >= b)

    def __eq__(self, o):
        if o is None or isinstance(o, (str, bytes, tuple, list, dict)):
            return False
        r = self._cmp(o, lambda a, b: a == b)
        return False if r is NotImplemented else r

    def __ne__(self, o):
        return Not(self.__eq__(o))

    __hash__ = None

    def __bool__(self):
        return bool(self != 0)

    def __repr__(self):
        return 'SReal(%s)' % (z3.simplify(self.t),)


def to_real(x):
    if isinstance(x, SReal):
        return x
    if isinstance(x, SInt):
        if x.bv:
            # exact only for values inside the W-bit range, which holds on verified paths
            return SReal(z3.ToReal(z3.BV2Int(x.t, True)))
        return SReal(z3.ToReal(x.t))
    if isinstance(x, bool):
        return SReal(z3.RealVal(int(x)))
    if isinstance(x, int):
        return SReal(z3.RealVal(x))
    if isinstance(x, float):
        if x != x or x in (float('inf'), float('-inf')):
            raise Unsupported('non-finite float')
        from fractions import Fraction
        f = Fraction(x)
        return SReal(z3.RealVal(f.numerator) / z3.RealVal(f.denominator))
    raise Unsupported('cannot convert %r to a real' % (type(x),))


def real_const(name):
    return SReal(z3.Real(name))


def real_trunc(x, mode):
    """int(x) for a real x: truncation toward zero, as an SInt of `mode`."""
    x = to_real(x)
    f = z3.ToInt(x.t)
    t = z3.If(x.t >= 0, f, -z3.ToInt(-x.t))
    return _int_to_mode(t, mode)


def real_round(x, mode):
    """round(x) for a real x: round-half-to-even, as an SInt of `mode`."""
    x = to_real(x)
    f = z3.ToInt(x.t)                                  # floor
    frac = x.t - z3.ToReal(f)
    half = z3.RealVal(1) / 2
    t = z3.If(frac < half, f, z3.If(frac > half, f + 1, z3.If(f % 2 == 0, f, f + 1)))
    return _int_to_mode(t, mode)


def _int_to_mode(t, mode):
    if mode == 'bv':
        return SInt(z3.Int2BV(t, W), None, None)
    return SInt(t, None, None)


# --------------------------------------------------------------------------
# strings (z3 String sort)
# --------------------------------------------------------------------------
class SStr(object):
    __slots__ = ('t',)

    def __init__(self, t):
        self.t = t

    def __eq__(self, o):
        if isinstance(o, str):
            return mk_bool(self.t == z3.StringVal(o))
        if isinstance(o, SStr):
            return mk_bool(self.t == o.t)
        return False

    def __ne__(self, o):
        return Not(self.__eq__(o))

    __hash__ = None

    def __add__(self, o):
        return SStr(z3.Concat(self.t, str_term(o)))

    def __radd__(self, o):
        return SStr(z3.Concat(str_term(o), self.t))

    def __bool__(self):
        return bool(mk_bool(z3.Length(self.t) > 0))

    def encode(self, enc='utf-8', errors='strict'):
        if str(enc).lower().replace('_', '-') in ('utf-8', 'utf8'):
            return SBytes([Blob(('utf8', self.t), utf8_len(self.t, engine().int_mode), decoded=self)])
        # any other codec: a different, unrelated byte string (and it may fail on unencodable characters)
        E = engine()
        if E.decide(E.new_bool('encode.%s.fails' % enc).t):
            raise UnicodeEncodeError(str(enc), '', 0, 1, 'character not encodable (model)')
        return SBytes([Blob((str(enc).lower(), self.t), E.new_int('enc.%s.len' % enc, 0, MAX_LEN))])

    def _strip(self, chars, what):
        """str.strip family on a symbolic string (assumed Python semantics: either nothing is removed and the result is the
        string itself, or the result is a strictly shorter piece of it): one path for each."""
        E = engine()
        if E.decide(E.new_bool('str.%s.removes-something' % what).t):
            r = E.new_str('%s-ped' % what)
            E.assume(mk_bool(z3.And(z3.Length(r.t) < z3.Length(self.t), z3.Contains(self.t, r.t))))
            return r
        return self

    def strip(self, chars=None):
        return self._strip(chars, 'strip')

    def lstrip(self, chars=None):
        return self._strip(chars, 'lstrip')

    def rstrip(self, chars=None):
        return self._strip(chars, 'rstrip')

    def __repr__(self):
        return 'SStr(%s)' % (self.t,)


def str_term(x):
    if isinstance(x, SStr):
        return x.t
    if isinstance(x, str):
        return z3.StringVal(x)
    raise Unsupported('cannot convert %r to a string term' % (type(x),))


def str_const(name):
    return SStr(z3.String(name))


_utf8_len = z3.Function('utf8_len', z3.StringSort(), z3.IntSort())
_utf8_len_bv = z3.Function('utf8_len_bv', z3.StringSort(), z3.BitVecSort(W))
MAX_LEN = (1 << 31) - 1


def utf8_len(t, mode):
    """Length in bytes of the UTF-8 encoding of a string term: an uninterpreted function,
    assumed (by Engine.new_str) to lie in [0, 2^31)."""
    if mode == 'bv':
        return SInt(_utf8_len_bv(t), 0, MAX_LEN)
    return SInt(_utf8_len(t), 0, MAX_LEN)


# --------------------------------------------------------------------------
# opaque values (floats on the wire, NBT, cipher text ...)
# --------------------------------------------------------------------------
class SOpaque(object):
    """A value of an uninterpreted sort; only equality is available."""
    __slots__ = ('t', 'kind')

    def __init__(self, t, kind):
        self.t = t
        self.kind = kind

    def __eq__(self, o):
        if isinstance(o, SOpaque) and o.kind == self.kind:
            return mk_bool(self.t == o.t)
        return False

    def __ne__(self, o):
        return Not(self.__eq__(o))

    __hash__ = None

    def __repr__(self):
        return 'SOpaque<%s>(%s)' % (self.kind, self.t)


# --------------------------------------------------------------------------
# bytes: segment algebra
# --------------------------------------------------------------------------
class Blob(object):
    """An opaque run of bytes with a (possibly symbolic) length.

    key      -- hashable structural identity: two blobs with equal keys (terms
                compared with z3 structural equality) denote the same bytes
    length   -- SInt (engine's integer mode) or Python int
    decoded  -- for ('utf8', s) blobs the string they decode to, etc.
    """
    __slots__ = ('key', 'length', 'decoded', 'base')

    def __init__(self, key, length, decoded=None, base=None):
        self.key = key
        self.length = length
        self.decoded = decoded
        self.base = base          # for ('slice', basekey, lo, hi) blobs: the blob they are a piece of

    def __repr__(self):
        return 'Blob(%s, len=%s)' % (self.key, self.length)


def _same_term(a, b):
    if isinstance(a, z3.ExprRef) and isinstance(b, z3.ExprRef):
        return a.eq(b) or z3.simplify(a).eq(z3.simplify(b))
    return type(a) is type(b) and a == b


def _merge_slices(x, y):
    """slice(b, lo, mid) || slice(b, mid, hi) = slice(b, lo, hi) when the two mids are the same term."""
    kx, ky = x.key, y.key
    if kx[0] == 'slice' and ky[0] == 'slice' and x.base is not None and x.base is y.base:
        if _same_term(kx[3], ky[2]):
            return Blob(('slice', kx[1], kx[2], ky[3]), x.length + y.length, base=x.base)
    return None


def _whole_slice(sl, other):
    """Formula under which the slice blob `sl` denotes all of blob `other`, or None."""
    if sl.key[0] == 'slice' and sl.base is other:
        lo, hi = sl.key[2], sl.key[3]
        n = other.length
        nt = n.t if isinstance(n, SInt) else n
        def eqz(a, b):
            if isinstance(a, z3.ExprRef) or isinstance(b, z3.ExprRef):
                if isinstance(a, int):
                    a = z3.BitVecVal(a, b.size()) if z3.is_bv(b) else z3.IntVal(a)
                if isinstance(b, int):
                    b = z3.BitVecVal(b, a.size()) if z3.is_bv(a) else z3.IntVal(b)
                return a == b
            return z3.BoolVal(a == b)
        return z3.And(eqz(lo, 0), eqz(hi, nt))
    return None


def _key_eq(a, b):
    """Formula under which two blob keys denote the same blob, or None if structurally different."""
    if type(a) is tuple and type(b) is tuple:
        if len(a) != len(b):
            return None
        fs = []
        for x, y in zip(a, b):
            f = _key_eq(x, y)
            if f is None:
                return None
            fs.append(f)
        return z3.And(*fs) if fs else z3.BoolVal(True)
    if isinstance(a, z3.ExprRef) and isinstance(b, z3.ExprRef):
        if a.sort() != b.sort():
            return None
        return a == b
    if isinstance(a, z3.ExprRef) or isinstance(b, z3.ExprRef):
        return None
    return z3.BoolVal(True) if a == b else None


class SBytes(object):
    """bytes value = concatenation of atoms:
         bytes literal | ('byte', BV8 term) | Blob
    """
    __slots__ = ('atoms',)

    def __init__(self, atoms=()):
        out = []
        for a in atoms:
            if isinstance(a, (bytes, bytearray)):
                a = bytes(a)
                if not a:
                    continue
                if out and isinstance(out[-1], bytes):
                    out[-1] = out[-1] + a
                    continue
            elif isinstance(a, Blob) and out and isinstance(out[-1], Blob):
                m = _merge_slices(out[-1], a)
                if m is not None:
                    out[-1] = m
                    continue
            out.append(a)
        self.atoms = out

    @staticmethod
    def of(x):
        if isinstance(x, SBytes):
            return x
        if isinstance(x, SByteArray):
            return x.data
        if isinstance(x, (bytes, bytearray)):
            return SBytes([bytes(x)])
        raise Unsupported('cannot convert %r to bytes' % (type(x),))

    def __add__(self, o):
        return SBytes(self.atoms + SBytes.of(o).atoms)

    def __radd__(self, o):
        return SBytes(SBytes.of(o).atoms + self.atoms)

    def is_concrete(self):
        return all(isinstance(a, bytes) for a in self.atoms)

    def concrete(self):
        return b''.join(self.atoms)

    def length(self):
        """Python int if concrete, else an SInt (in the mode of the blob lengths)."""
        n = 0
        sym = []
        for a in self.atoms:
            if isinstance(a, bytes):
                n += len(a)
            elif isinstance(a, tuple):
                n += 1
            else:
                if isinstance(a.length, int):
                    n += a.length
                else:
                    sym.append(a.length)
        if not sym:
            return n
        t = sym[0]
        for s in sym[1:]:
            t = t + s
        return t + n if n else t

    def __len__(self):
        n = self.length()
        if isinstance(n, int):
            return n
        raise Unsupported('len() of bytes with symbolic length in native code')

    def byte_terms(self):
        """List of BV8 terms if the value consists only of literal and single symbolic bytes."""
        out = []
        for a in self.atoms:
            if isinstance(a, bytes):
                out.extend(z3.BitVecVal(c, 8) for c in a)
            elif isinstance(a, tuple):
                out.append(a[1])
            else:
                return None
        return out

    def eq_formula(self, o):
        """A formula that IMPLIES self == o (structural equality), or None."""
        o = SBytes.of(o)
        a, b = self.byte_terms(), o.byte_terms()
        if a is not None and b is not None:
            if len(a) != len(b):
                return z3.BoolVal(False)
            return z3.And(*[x == y for x, y in zip(a, b)]) if a else z3.BoolVal(True)
        # align atom by atom; a blob without a counterpart must be empty (sufficient condition)
        return _align(_explode(self.atoms), _explode(o.atoms), 0)

    def __eq__(self, o):
        if not isinstance(o, (SBytes, bytes, bytearray)):
            return False
        f = self.eq_formula(o)
        if f is None:
            raise Unsupported('bytes equality between structurally different values: %r vs %r' % (self, o))
        return mk_bool(f)

    def __ne__(self, o):
        return Not(self.__eq__(o))

    __hash__ = None

    def __getitem__(self, idx):
        ts = self.byte_terms()
        if ts is not None and not isinstance(idx, SInt):
            if isinstance(idx, slice):
                if any(isinstance(x, SInt) for x in (idx.start, idx.stop, idx.step)):
                    raise Unsupported('bytes slice with symbolic bounds')
                return SBytes([('byte', t) for t in ts[idx]])
            t = ts[idx]
            return byte_to_int(t, engine().int_mode)
        # an opaque function of the value and the subscript (only equality with itself is known)
        E = engine()
        n = self.length()
        if isinstance(idx, slice) and idx.start is None and idx.stop is None and idx.step in (None, 1, -1):
            ln = n
        else:
            ln = E.new_int('sub.len', 0, None)
            E.assume(ln <= n)
        key = tuple(a if isinstance(a, bytes) else (a[1] if isinstance(a, tuple) else a.key) for a in self.atoms)
        return SBytes([Blob(('subscript', key, repr(idx)), ln)])

    def _strip(self, chars, left, right):
        """bytes.lstrip / rstrip / strip with a concrete byte set, for values made of literal and single symbolic bytes:
        one path per number of stripped bytes (assumed Python semantics: maximal prefix / suffix of bytes from the set)."""
        if self.is_concrete():
            c = self.concrete()
            return SBytes.of(c.strip(chars) if left and right else (c.lstrip(chars) if left else c.rstrip(chars)))
        terms = self.byte_terms()
        if terms is None or not isinstance(chars, (bytes, bytearray)) or not chars:
            raise Unsupported('bytes.strip family on %r with argument %r: no model' % (self, chars))
        E = engine()

        def in_set(t):
            return z3.Or(*[t == z3.BitVecVal(c, 8) for c in bytes(chars)])
        lo, hi = 0, len(terms)
        if left:
            while lo < hi and E.decide(in_set(terms[lo])):
                lo += 1
        if right:
            while hi > lo and E.decide(in_set(terms[hi - 1])):
                hi -= 1
        return SBytes([('byte', t) for t in terms[lo:hi]])

    def lstrip(self, chars=None):
        return self._strip(chars, True, False)

    def rstrip(self, chars=None):
        return self._strip(chars, False, True)

    def strip(self, chars=None):
        return self._strip(chars, True, True)

    def decode(self, enc='utf-8', errors='strict'):
        if self.is_concrete():
            return self.concrete().decode(enc, errors)
        if str(enc).lower().replace('_', '-') not in ('utf-8', 'utf8') or errors != 'strict':
            # the assumed inverse pair is encode('utf-8') / decode('utf-8') with strict error handling; any other codec or
            # error handler is a different function (e.g. 'utf-8-sig' drops a leading U+FEFF)
            raise Unsupported('bytes.decode(%r, %r) of a symbolic value: no model' % (enc, errors))
        if len(self.atoms) == 1 and isinstance(self.atoms[0], Blob) and \
                isinstance(self.atoms[0].decoded, SStr):
            return self.atoms[0].decoded
        if len(self.atoms) == 0:
            return ''
        if len(self.atoms) == 1 and isinstance(self.atoms[0], Blob):
            k = self.atoms[0].key
            if k[0] == 'slice' and isinstance(k[1], tuple) and k[1] and k[1][0] == 'utf8':
                # a proper piece of a UTF-8 encoding: CPython either raises UnicodeDecodeError (cut inside a
                # character) or returns some string -- both outcomes are possible, so both are explored
                E = engine()
                if E.decide(E.new_bool('utf8.cut-inside-char').t):
                    raise UnicodeDecodeError('utf-8', b'', 0, 1, 'unexpected end of data (model)')
                return E.new_str('partial')
        raise Unsupported('decode of %r' % (self,))

    def __repr__(self):
        def r(a):
            if isinstance(a, bytes):
                return a.hex() or "''"
            if isinstance(a, tuple):
                return '<%s>' % z3.simplify(a[1])
            return repr(a)
        return 'SBytes[%s]' % ' '.join(r(a) for a in self.atoms)


def _len_zero(b):
    if isinstance(b.length, int):
        return z3.BoolVal(b.length == 0)
    return b.length.t == 0


def _align(xs, ys, depth):
    """Formula implying that the two exploded atom lists denote equal byte strings, or None."""
    if depth > 12:
        return None
    if not xs and not ys:
        return z3.BoolVal(True)
    x = xs[0] if xs else None
    y = ys[0] if ys else None
    xb, yb = isinstance(x, Blob), isinstance(y, Blob)
    if xb and yb:
        f = _key_eq(x.key, y.key)
        if f is None:
            f = _whole_slice(x, y)
            if f is None:
                f = _whole_slice(y, x)
        if f is not None:
            rest = _align(xs[1:], ys[1:], depth)
            return None if rest is None else z3.And(f, rest)
        a = _align(xs[1:], ys, depth + 1)
        b = _align(xs, ys[1:], depth + 1)
        opts = []
        if a is not None:
            opts.append(z3.And(_len_zero(x), a))
        if b is not None:
            opts.append(z3.And(_len_zero(y), b))
        return z3.Or(*opts) if opts else None
    if xb:
        a = _align(xs[1:], ys, depth + 1)
        return None if a is None else z3.And(_len_zero(x), a)
    if yb:
        b = _align(xs, ys[1:], depth + 1)
        return None if b is None else z3.And(_len_zero(y), b)
    if x is None or y is None:
        return z3.BoolVal(False)
    rest = _align(xs[1:], ys[1:], depth)
    return None if rest is None else z3.And(x == y, rest)


def _explode(atoms):
    out = []
    for a in atoms:
        if isinstance(a, bytes):
            out.extend(z3.BitVecVal(c, 8) for c in a)
        elif isinstance(a, tuple):
            out.append(a[1])
        else:
            out.append(a)
    return out


def sym_byte(term8):
    return ('byte', term8)


def byte_to_int(term8, mode):
    """Unsigned value of a BV8 term as an SInt in the given mode (a Python int if it is a numeral)."""
    term8 = z3.simplify(term8)
    if z3.is_bv_value(term8):
        return term8.as_long()
    if mode == 'bv':
        return SInt(z3.ZeroExt(W - 8, term8), 0, 255)
    return SInt(z3.BV2Int(term8, False), 0, 255)


def int_to_byte(x, mode=None):
    """Low 8 bits of an SInt/int as a BV8 term."""
    if isinstance(x, int):
        return z3.BitVecVal(x & 0xFF, 8)
    if x.bv:
        return z3.simplify(z3.Extract(7, 0, x.t))
    return z3.Int2BV(x.t, 8)


# --------------------------------------------------------------------------
# sets with symbolic elements
# --------------------------------------------------------------------------
class SymSet(object):
    """A set display whose elements are (partly) symbolic: membership is decided by equality with the elements.
    Only singleton sets have a known size (larger ones may contain equal elements)."""

    def __init__(self, elems):
        self.elems = list(elems)

    def __iter__(self):
        return iter(self.elems)

    def __len__(self):
        if len(self.elems) <= 1:
            return len(self.elems)
        raise Unsupported('size of a set with several symbolic elements')

    def __repr__(self):
        return 'SymSet(%r)' % (self.elems,)


class SByteArray(object):
    """bytearray with symbolic content: append / extend / += / len / bytes()."""

    def __init__(self, data=None):
        self.data = SBytes.of(data) if data is not None else SBytes()

    def append(self, x):
        if isinstance(x, SInt):
            E = engine()
            E.side_obligation('byte-range', z3.And((x >= 0).t if isinstance(x >= 0, SBool) else z3.BoolVal(bool(x >= 0)),
                                                   (x <= 255).t if isinstance(x <= 255, SBool) else z3.BoolVal(bool(x <= 255))))
            self.data = self.data + SBytes([('byte', int_to_byte(x))])
        elif isinstance(x, int):
            if not 0 <= x <= 255:
                raise ValueError('byte must be in range(0, 256)')
            self.data = self.data + SBytes([bytes([x])])
        else:
            raise TypeError('an integer is required')

    def extend(self, other):
        self.data = self.data + SBytes.of(other)

    def __iadd__(self, other):
        self.extend(other)
        return self

    def __sym_len__(self):
        return self.data.length()

    def __getitem__(self, idx):
        r = self.data[idx]
        return SByteArray(r) if isinstance(r, SBytes) else r

    def __eq__(self, o):
        return self.data == SBytes.of(o.data if isinstance(o, SByteArray) else o)

    __hash__ = None
