"""Helpers for running the real code natively (replay, conformance, bounded stand-ins)."""
import io
import signal


class Hang(Exception):
    pass


def native_call(fn, *args, timeout=2.0, **kwargs):
    """Run fn natively with a wall-clock bound.
    Returns ('ok', value) | ('raise', exception) | ('hang', None)."""
    def on_alarm(signum, frame):
        raise Hang()
    old = signal.signal(signal.SIGALRM, on_alarm)
    signal.setitimer(signal.ITIMER_REAL, timeout)
    try:
        try:
            return ('ok', fn(*args, **kwargs))
        except Hang:
            return ('hang', None)
        except Exception as e:       # noqa
            return ('raise', e)
    finally:
        signal.setitimer(signal.ITIMER_REAL, 0)
        signal.signal(signal.SIGALRM, old)


class CountingStream(object):
    """A real BytesIO with read-call accounting."""

    def __init__(self, data):
        self.b = io.BytesIO(data)
        self.reads = 0
        self.sizes = []

    def read(self, n=None):
        self.reads += 1
        r = self.b.read(n)
        self.sizes.append((n, len(r)))
        return r

    def tell(self):
        return self.b.tell()


class Sink(object):
    def __init__(self):
        self.data = b''
        self.sends = 0

    def send(self, d):
        self.sends += 1
        self.data += bytes(d)
