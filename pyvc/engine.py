"""Path exploration, obligations and solver back ends of PyVC.

Forking is done by *re-execution with a decision prefix*: a unit's `run`
function is executed from the top for every path; `decide` follows the recorded
prefix and, past its end, asks the solver which branches are feasible under the
path condition, takes one and queues the other.
"""
import os
import subprocess
import tempfile
import time
from fractions import Fraction

import z3

from .values import (SBool, SInt, SReal, SStr, SBytes, SOpaque, Blob, Unsupported, W,
                     term_bool, utf8_len)


class PathEnd(Exception):
    """The current path is over (infeasible, or deliberately cut)."""


class EngineError(Exception):
    """Internal inconsistency: exit 3, never a verdict about the code."""


DISCHARGED, FAILED, UNKNOWN = 'discharged', 'failed', 'unknown'


class Obligation(object):
    __slots__ = ('unit', 'label', 'path', 'status', 'backend', 'time', 'model', 'note', 'kind')

    def __init__(self, unit, label, path, status, backend, time_s, model=None, note='', kind='post'):
        self.unit, self.label, self.path = unit, label, path
        self.status, self.backend, self.time = status, backend, time_s
        self.model, self.note, self.kind = model, note, kind

    def as_dict(self):
        return dict(unit=self.unit, label=self.label, path=self.path, status=self.status,
                    backend=self.backend, time_s=round(self.time, 4), note=self.note, kind=self.kind,
                    model=self.model)


def _py(v):
    """z3 model value -> plain Python value."""
    if z3.is_bv_value(v):
        n = v.as_long()
        if v.size() == W and n >= 1 << (W - 1):
            n -= 1 << W
        return n
    if z3.is_int_value(v):
        return v.as_long()
    if z3.is_rational_value(v):
        return Fraction(v.numerator_as_long(), v.denominator_as_long())
    if z3.is_true(v):
        return True
    if z3.is_false(v):
        return False
    if z3.is_string_value(v):
        return v.as_string()
    if z3.is_algebraic_value(v):
        return float(v.approx(20).as_fraction())
    return str(v)


class Model(object):
    """A z3 model with evaluation of PyVC values to concrete Python values."""

    def __init__(self, m):
        self.m = m

    def term(self, t):
        return _py(self.m.eval(t, model_completion=True))

    def value(self, x):
        if isinstance(x, SInt):
            return self.term(x.t)
        if isinstance(x, SBool):
            return self.term(x.t)
        if isinstance(x, SReal):
            return self.term(x.t)
        if isinstance(x, SStr):
            s = self.term(x.t)
            return _unescape(s)
        if isinstance(x, SBytes):
            out = b''
            for a in x.atoms:
                if isinstance(a, bytes):
                    out += a
                elif isinstance(a, tuple):
                    out += bytes([self.term(a[1]) & 0xFF])
                else:
                    out += self.blob(a)
            return out
        if isinstance(x, SOpaque):
            return str(self.m.eval(x.t, model_completion=True))
        if isinstance(x, tuple):
            return tuple(self.value(e) for e in x)
        if isinstance(x, list):
            return [self.value(e) for e in x]
        if isinstance(x, dict):
            return {k: self.value(v) for k, v in x.items()}
        return x

    def blob(self, b):
        n = b.length if isinstance(b.length, int) else self.value(b.length)
        if isinstance(b.decoded, SStr):
            return self.value(b.decoded).encode('utf-8')
        if isinstance(b.decoded, (bytes, bytearray)):
            return bytes(b.decoded)
        # opaque content: any bytes of the right length; derive them from the key so that
        # distinct blobs get distinct content
        seed = abs(hash(str(b.key))) % 251
        return bytes((seed + i) % 256 for i in range(max(n, 0)))

    def as_dict(self):
        out = {}
        for d in self.m.decls():
            if d.arity() == 0:
                v = _py(self.m[d])
                if isinstance(v, Fraction):
                    v = str(v)
                out[d.name()] = v
        return out


def _unescape(s):
    # z3 prints non-ASCII as \u{..}
    import re
    return re.sub(r'\\u\{([0-9a-fA-F]+)\}', lambda m: chr(int(m.group(1), 16)), s)


class Engine(object):
    current = None

    def __init__(self, unit_name, timeout_ms=20000, max_paths=4000, seed=0, cross_solver=False):
        self.unit = unit_name
        self.timeout_ms = timeout_ms
        self.max_paths = max_paths
        self.cross_solver = cross_solver
        self.cross_budget_s, self.cross_spent, self.cross_queries = 120, 0.0, 0
        self.obligations = []
        self.paths = []           # per finished path: dict(id, decisions, outcome)
        self.notes = []           # assumptions / unroll / caps recorded mechanically
        self.solver_time = 0.0
        self.queries = 0
        self.int_mode = 'bv'
        self.deadline = None
        self.branch_timeout_ms = None     # shorter budget for branch-feasibility queries (unknown = feasible, which is sound)
        self._reset_path([])

    # -- path state --------------------------------------------------------
    def _reset_path(self, prefix):
        self.prefix = list(prefix)
        self.decisions = []
        self.pos = 0
        self.pc = []
        self.fresh_counter = {}
        self.solver = z3.Solver()
        self.solver.set('timeout', self.timeout_ms)
        self.path_id = len(self.paths)
        self.path_obligations = 0
        self.ghost = {}

    def explore(self, run, on_path=None):
        """Run `run(self)` once per feasible path. Returns list of per-path results."""
        work = [[]]
        self._work = work
        results = []
        prev = Engine.current
        Engine.current = self
        try:
            while work:
                if self.deadline is not None and time.time() > self.deadline:
                    self.notes.append('unit wall-clock budget exceeded: remaining paths NOT explored')
                    raise Unsupported('wall-clock budget of unit %s exceeded after %d paths' % (self.unit, len(self.paths)))
                if len(self.paths) >= self.max_paths:
                    self.notes.append('path cap %d reached: remaining paths NOT explored' % self.max_paths)
                    raise Unsupported('path cap reached in unit %s' % self.unit)
                prefix = work.pop()
                self._reset_path(prefix)
                outcome = None
                try:
                    outcome = run(self)
                    status = 'done'
                except PathEnd as e:
                    status = 'cut:%s' % (e,)
                rec = dict(id=self.path_id, decisions=list(self.decisions), status=status, outcome=outcome)
                self.paths.append(rec)
                if status == 'done' and on_path is not None:
                    on_path(self, rec)
                results.append(rec)
        finally:
            Engine.current = prev
        return results

    # -- symbols -------------------------------------------------------------
    def fresh_name(self, base):
        n = self.fresh_counter.get(base, 0)
        self.fresh_counter[base] = n + 1
        return base if n == 0 else '%s!%d' % (base, n)

    def new_int(self, base, lo=None, hi=None, mode=None):
        mode = mode or self.int_mode
        name = self.fresh_name(base)
        if mode == 'bv':
            x = SInt(z3.BitVec(name, W), lo, hi)
        else:
            x = SInt(z3.Int(name), lo, hi)
        if lo is not None:
            self.assume(x >= lo)
        if hi is not None:
            self.assume(x <= hi)
        return x

    def new_bool(self, base):
        return SBool(z3.Bool(self.fresh_name(base)))

    def new_byte(self, base):
        return ('byte', z3.BitVec(self.fresh_name(base), 8))

    def new_real(self, base):
        return SReal(z3.Real(self.fresh_name(base)))

    def new_str(self, base):
        s = SStr(z3.String(self.fresh_name(base)))
        n = utf8_len(s.t, self.int_mode)
        self.assume(n >= 0)
        self.assume(n <= n.hi)
        # the empty string is the only one with an empty encoding
        self.assume(SBool((n.t == 0) == (s.t == z3.StringVal(''))))
        return s

    def new_blob(self, base, length=None, lo=0, hi=(1 << 31) - 1):
        name = self.fresh_name(base)
        if length is None:
            length = self.new_int(name + '.len', lo, hi)
        return Blob(('blob', name), length)

    def new_opaque(self, base, sort, kind):
        return SOpaque(z3.Const(self.fresh_name(base), sort), kind)

    # -- path condition ------------------------------------------------------
    def _guarded_check(self):
        """solver.check() with a watchdog: z3's own timeout is not always honoured (nonlinear / quantified goals)."""
        import threading
        ctx = self.solver.ctx
        timer = threading.Timer(self.timeout_ms / 1000.0 + 2.0, ctx.interrupt)
        timer.daemon = True
        timer.start()
        try:
            try:
                return self.solver.check()
            except z3.Z3Exception:
                return z3.unknown
        finally:
            timer.cancel()
            if timer.is_alive():
                timer.join(1.0)       # do not let a late interrupt leak into the next query

    def _check(self, extra=None):
        t0 = time.time()
        self.queries += 1
        if extra is not None:
            self.solver.push()
            self.solver.add(extra)
        r = self._guarded_check()
        if extra is not None:
            self.solver.pop()
        self.solver_time += time.time() - t0
        return r

    def assume(self, cond):
        t = term_bool(cond)
        t = z3.simplify(t)
        if z3.is_true(t):
            return
        self.pc.append(t)
        self.solver.add(t)
        if z3.is_false(t):
            raise PathEnd('assume false')

    def implied(self, cond):
        """True iff the path condition implies cond (no forking)."""
        t = z3.simplify(term_bool(cond))
        if z3.is_true(t):
            return True
        if z3.is_false(t):
            return False
        return self._check(z3.Not(t)) == z3.unsat

    def feasible(self):
        return self._check() != z3.unsat

    def decide(self, cond):
        t = z3.simplify(term_bool(cond))
        if z3.is_true(t):
            return True
        if z3.is_false(t):
            return False
        if self.deadline is not None and time.time() > self.deadline + 30:
            self.notes.append('unit wall-clock budget exceeded inside a path')
            raise Unsupported('wall-clock budget of unit %s exceeded inside a path' % self.unit)
        if self.pos < len(self.prefix):
            d = self.prefix[self.pos]
        else:
            if self.branch_timeout_ms:
                self.solver.set('timeout', self.branch_timeout_ms)
            rt = self._check(t)
            rf = self._check(z3.Not(t))
            if self.branch_timeout_ms:
                self.solver.set('timeout', self.timeout_ms)
            ft, ff = rt != z3.unsat, rf != z3.unsat
            if z3.unknown in (rt, rf):
                self.notes.append('branch feasibility unknown (treated as feasible)')
            if ft and ff:
                self._work.append(self.decisions + [False])
                d = True
            elif ft:
                d = True
            elif ff:
                d = False
            else:
                raise PathEnd('infeasible')
        self.pos += 1
        self.decisions.append(d)
        c = t if d else z3.Not(t)
        self.pc.append(c)
        self.solver.add(c)
        return d

    def fork(self, n, label='choice'):
        """Non-deterministic choice among n alternatives (external behaviour)."""
        for i in range(n - 1):
            b = self.new_bool('%s#%d' % (label, i))
            if self.decide(b.t):
                return i
        return n - 1

    # -- obligations -----------------------------------------------------------
    def check(self, label, cond, note='', kind='post'):
        """Obligation: path condition implies cond. Returns True iff discharged."""
        self.path_obligations += 1
        try:
            t = z3.simplify(term_bool(cond))
        except Unsupported as e:
            self.obligations.append(Obligation(self.unit, label, self.path_id, UNKNOWN, 'none', 0.0,
                                               note='unsupported: %s' % e, kind=kind))
            return False
        t0 = time.time()
        if z3.is_true(t):
            self.obligations.append(Obligation(self.unit, label, self.path_id, DISCHARGED,
                                               'simplifier', 0.0, note=note, kind=kind))
            return True
        r = self._check(z3.Not(t))
        backend = 'z3-%s' % z3.get_version_string()
        model = None
        if r == z3.unknown:
            r2 = self._cvc5(z3.Not(t))
            if r2 is not None:
                backend = 'cvc5-cli'
                r = r2
        dt = time.time() - t0
        if r == z3.unsat:
            if self.cross_solver and backend.startswith('z3') and self.cross_spent < self.cross_budget_s:
                # second opinion (thorough tier): short per-query limit and a per-unit budget - the cross-check must
                # never be what makes a check undecided
                t1 = time.time()
                r2 = self._cvc5(z3.Not(t), limit_ms=min(self.timeout_ms, 4000))
                self.cross_spent += time.time() - t1
                self.cross_queries += 1
                if self.cross_spent >= self.cross_budget_s:
                    self.notes.append('cvc5 cross-check budget (%d s) used up after %d obligations of this unit; the remaining '
                                      'ones are decided by z3 alone' % (self.cross_budget_s, self.cross_queries))
                if r2 == z3.sat:
                    raise EngineError('solver disagreement on %s/%s' % (self.unit, label))
                if r2 == z3.unsat:
                    backend += '+cvc5-cli'
            self.obligations.append(Obligation(self.unit, label, self.path_id, DISCHARGED, backend, dt,
                                               note=note, kind=kind))
            return True
        if r == z3.sat:
            # A failure is only reported after a FRESH solver instance (no incremental state, no stale interrupt) has
            # confirmed that path condition and negated clause are satisfiable together: branch-feasibility queries
            # that came back `unknown` (treated as feasible) can otherwise lead to a spurious path.
            fresh = z3.Solver()
            fresh.set('timeout', max(self.timeout_ms, 20000))
            fresh.add(*self.pc)
            fresh.add(z3.Not(t))
            r2 = fresh.check()
            if r2 == z3.unsat:
                self.obligations.append(Obligation(self.unit, label, self.path_id, DISCHARGED, backend + '+fresh', time.time() - t0,
                                                   note=(note + ' ' if note else '') + '(incremental sat not confirmed by a fresh solver: path infeasible)',
                                                   kind=kind))
                return True
            if r2 == z3.unknown:
                self.obligations.append(Obligation(self.unit, label, self.path_id, UNKNOWN, backend, time.time() - t0,
                                                   note=note or 'fresh solver returned unknown', kind=kind))
                return False
            try:
                model = Model(fresh.model())
            except z3.Z3Exception:
                model = None
            ob = Obligation(self.unit, label, self.path_id, FAILED, backend, dt,
                            model=model.as_dict() if model else None, note=note, kind=kind)
            self.obligations.append(ob)
            self.last_failed_model = model
            # continue the path under the assumption that the clause held, so that later
            # obligations are judged on their own
            self.assume(SBool(t))
            return False
        self.obligations.append(Obligation(self.unit, label, self.path_id, UNKNOWN, backend, dt,
                                           note=note or 'solver returned unknown', kind=kind))
        return False

    def side_obligation(self, label, cond_term):
        self.check('side:' + label, SBool(cond_term), kind='side')

    def cover(self, label):
        """Non-vacuity: the current path condition must be satisfiable."""
        r = self._check()
        st = DISCHARGED if r == z3.sat else (UNKNOWN if r == z3.unknown else FAILED)
        self.obligations.append(Obligation(self.unit, 'cover:' + label, self.path_id, st, 'z3', 0.0, kind='cover'))
        return r == z3.sat

    def must_fail(self, label, cond):
        """Must-fail twin: a deliberately wrong clause has to be refutable here."""
        t = z3.simplify(term_bool(cond))
        r = self._check(z3.Not(t))
        st = DISCHARGED if r == z3.sat else (UNKNOWN if r == z3.unknown else FAILED)
        self.obligations.append(Obligation(self.unit, 'twin:' + label, self.path_id, st, 'z3', 0.0,
                                           note='wrong clause must be refuted', kind='twin'))
        return r == z3.sat

    def model(self, extra=None):
        if extra is not None:
            self.solver.push()
            self.solver.add(term_bool(extra))
        r = self._guarded_check()
        try:
            m = Model(self.solver.model()) if r == z3.sat else None
        except z3.Z3Exception:
            m = None
        if extra is not None:
            self.solver.pop()
        return m

    # -- second solver -----------------------------------------------------------
    def _cvc5(self, negated_goal, limit_ms=None):
        limit_ms = limit_ms or self.timeout_ms
        exe = '/usr/bin/cvc5'
        if not os.path.exists(exe):
            return None
        s = z3.Solver()
        s.add(self.pc)
        s.add(negated_goal)
        smt = '(set-logic ALL)\n' + s.to_smt2()
        fd, path = tempfile.mkstemp(suffix='.smt2')
        try:
            with os.fdopen(fd, 'w') as f:
                f.write(smt)
            try:
                out = subprocess.run([exe, '--strings-exp', '--tlimit=%d' % limit_ms, path],
                                     capture_output=True, text=True, timeout=limit_ms / 1000 + 5)
            except subprocess.TimeoutExpired:
                return None
            first = (out.stdout.strip().splitlines() or [''])[0]
            if first == 'unsat':
                return z3.unsat
            if first == 'sat':
                return z3.sat
            return None
        finally:
            os.unlink(path)
